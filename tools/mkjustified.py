#!/usr/bin/env python3
"""Regenerates rules/justified.json from the keys of the last C07 report:
every key must be classified by one of the argued groups below, otherwise it
is left out (and stays a finding)."""
import json, re, sys, os
ROOT = os.path.dirname(os.path.dirname(os.path.abspath(__file__)))
G1="window invariant: cursor < dict_size and cursor <= buf.len(). cursor starts at 0 (from_stream), is only incremented by one in append_literal right after set(cursor, ..) grew buf to cursor+1, and is reset to 0 when it reaches dict_size; dict_size >= 1 (read_header clamps to >= 4096, LzmaDecoder::new rejects 0) and dict_size <= u32::MAX, so dict_size + cursor cannot overflow, '% dict_size' cannot divide by zero and offset < dict_size by the wrap test. E-AI loses the relation at the joined Ok/Err return states of nested calls."
S1=[{"kind":"writers","adt":"decode::lzbuffer::LzCircularBuffer","field":"cursor","only_in":["LzBuffer>::append_literal","LzCircularBuffer::from_stream"]},
    {"kind":"writers","adt":"decode::lzbuffer::LzCircularBuffer","field":"dict_size","only_in":["LzCircularBuffer::from_stream"]},
    {"kind":"writers","adt":"decode::lzbuffer::LzCircularBuffer","field":"buf","only_in":["LzCircularBuffer::from_stream"]}]
G2="lc <= 8, lp <= 4, pb <= 4 (hence pos_state <= 15, shifts < 64, 8 - lc >= 0): every value stored in DecoderState.lzma_props has passed LzmaProperties::validate() in the same function (DecoderState::new, reset_state); the raw constructor documents these bounds as its precondition. state <= 11 by the transition table, so (state << 4) + pos_state <= 191."
S2=[{"kind":"validated_store","adt":"decode::lzma::DecoderState","field":"lzma_props","validator":"LzmaProperties::validate"}]
G3="staging-buffer positions stay within the arrays (18 resp. 20 bytes): a position is only set to position + n with n <= remaining capacity (Read::read contract: n <= buf.len() of the slice [position..]) or to end - consumed with consumed <= end (a Cursor handed to reader code returns with position <= len); both copy_from_slice operands have length end - consumed."
S3=[{"kind":"callers_only","callee":"std::io::Cursor::set_position","receiver_field":"tmp","only_in":["Stream as std::io::Write>::write"]},
    {"kind":"callers_only","callee":"std::io::Cursor::set_position","receiver_field":"partial_input_buf","only_in":["DecoderState::read_partial_input_buf","DecoderState::process_mode"]}]
G4="literal table row bound: lit_state = ((len & (2^lp - 1)) << lc) + (prev >> (8 - lc)) <= (2^lp - 1) * 2^lc + 2^lc - 1 = 2^(lc+lp) - 1 < rows, where rows = 1 << (lc+lp) of the current properties (Vec2D::init in new / reset_state; fill keeps the size when lc+lp is unchanged); cols = 0x300 so row*cols + cols <= len(data), checked_mul cannot fail and nothing overflows. Non-linear in lc/lp: outside the linear domain."
S4=[{"kind":"callers_only","callee":"util::vec2d::Vec2D::init","only_in":["DecoderState::new","DecoderState::reset_state"]}]
G5="constructor precondition: LzmaProperties documents lc <= 8, lp <= 4, pb <= 4 on its public fields; validate() turns a violation into a panic at construction time (a constructor that panics does not accept the value). Reachable only from the raw constructors with caller-chosen properties, never from header-driven paths (props < 225 and the mod/div arithmetic bound them)."
G6="unit growth driven by data: new_len = cursor + 1 where cursor advances by one per appended byte, and new_len <= memlimit is tested first; the window never grows by more than one byte per byte produced."
G7="offset = buf.len() - dist with 1 <= dist <= buf.len() (guard above; callers pass rep0 + 1 >= 1); each round pushes one byte and increments offset, so offset < buf.len() is preserved."
RULES=[
 (r"LzCircularBuffer", r"^(Overflow|RemainderByZero|SliceIndex).*(dict_size|cursor|arg:index)", G1, S1),
 (r"LzCircularBuffer::set$", r"^alloc:std::vec::Vec::resize", G6, S1),
 (r"LzAccumBuffer.*append_lz$", r"^SliceIndex:.*index\(ref\(field\(buf", G7, []),
 (r"DecoderState::(decode_literal|process_next_inner)$|LenDecoder::decode$", r"(lzma_props|pos_state|BoundsCheck\(192)", G2, S2),
 (r"Stream as std::io::Write>::write$|DecoderState::(process_mode|read_partial_input_buf)$", r"(field\(tmp|partial_input_buf)", G3, S3),
 (r"Vec2D", r"(checked_mul|cols|Panic:std::rt::panic_fmt)", G4, S4),
 (r"LzmaProperties::validate$", r"^Panic:core::panicking::panic@assert", G5, []),
]
rep=json.load(open(os.path.join(ROOT,"evidence","reports","C07-1.json")))
E=[]; left=[]
for f in rep["findings"]:
    if "|" not in f["key"]: left.append(f["key"]); continue
    fn,term=f["key"].split("|",1)
    for fr,tr,reason,side in RULES:
        if re.search(fr,fn) and re.search(tr,term):
            E.append({"property":"C07","fn":fn,"term":term,"reason":reason,"side_conditions":side}); break
    else:
        left.append(f["key"])
json.dump({"_comment":"Obligations the engines cannot discharge but a reader can. Keys are (function, structural provenance term of the obligation) - never line numbers. side_conditions are checked mechanically on every run; an entry whose side-condition fails discharges nothing.","entries":E}, open(os.path.join(ROOT,"rules","justified.json"),"w"), indent=1)
print("entries",len(E)); print("unclassified:"); [print("  ",x[:200]) for x in left]
