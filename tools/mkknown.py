#!/usr/bin/env python3
"""mkknown.py: regenerates engine/known_functions.json - the function names of the tree the rules were written against, in
every feature configuration.  engine/mir.py splices a private function that is NOT in this list and has exactly one call
site back into its caller, so that extracting a helper does not change what the rules see.  Run it only after reviewing a
legitimately new function (a listed function is analysed as a function of its own).  Tooling, not a registered check."""
import json, os, subprocess, sys, tempfile
ROOT = os.path.dirname(os.path.dirname(os.path.abspath(__file__)))
repo = sys.argv[1] if len(sys.argv) > 1 else "/repo"
names = set()
with tempfile.TemporaryDirectory(prefix="verif-known-") as T:
    for i, cfg in enumerate(("stream,raw_decoder", "stream,raw_decoder,enable_logging", "none", "stream", "raw_decoder")):
        out = os.path.join(T, "f%d.json" % i)
        subprocess.check_call([os.path.join(ROOT, "tools", "mkfacts.sh"), repo, cfg, out], stdout=subprocess.DEVNULL, stderr=subprocess.DEVNULL)
        for b in json.load(open(out))["bodies"]:
            if b.get("promoted") is None and b["kind"] in ("Fn", "AssocFn"):
                names.add(b["name"])
p = os.path.join(ROOT, "engine", "known_functions.json")
old = json.load(open(p))
old["functions"] = sorted(names)
json.dump(old, open(p, "w"), indent=0)
print(len(names), "functions")
