#!/usr/bin/env python3
"""Regenerates MANIFEST.json from the table below (keeps it schema-valid)."""
import json, os, sys
ROOT = os.path.dirname(os.path.dirname(os.path.abspath(__file__)))
sys.path.insert(0, ROOT)
from tools.manifest_table import CLAIMED, NOT_APPLICABLE, TITLES

checks = []
for pid, c in sorted(CLAIMED.items()):
    checks.append({
        "property_id": pid,
        "quick_cmd": "./check %s --tier quick" % pid,
        "thorough_cmd": "./check %s --tier thorough" % pid,
        "evidence_file": "evidence/%s.json" % pid,
        "replay_cmd_template": "./check %s --explain {path}" % pid,
        "engine": c["engine"],
        "level_claimed": {"category": "other", "text": c["text"], "design_ref": c["design_ref"]},
        "level_note": c["note"],
        "technique": c["technique"],
    })
m = {
    "version": 1,
    "setup_cmd": "cd tools/lzfacts && cargo build --release --offline",
    "hooks": {
        "guard": "lzma_rs_verif (reserved, unused)",
        "enable": "none - the checks read /repo's current sources through a rustc_private driver; no instrumentation",
        "baseline_off_cmd": "cd /repo && cargo test --workspace --no-fail-fast --offline",
        "source_commits": [],
        "add_only": True,
    },
    "engines": [
        {"name": "lzfacts", "path": "tools/lzfacts", "serves_properties": sorted(CLAIMED),
         "kind_free_text": "rustc_private driver: dumps MIR (opt-level 0, overflow checks on), resolved callees, ADTs, consts as JSON facts"},
        {"name": "E-CFG/E-TERM", "path": "engine/cfg.py engine/flow.py", "serves_properties": sorted(CLAIMED),
         "kind_free_text": "dominators, reachability over exit classes, provenance terms of operands"},
        {"name": "E-AI", "path": "engine/ai.py engine/dom.py engine/models.py engine/canon.py engine/harness.py",
         "serves_properties": [p for p, c in sorted(CLAIMED.items()) if "E-AI" in c["engine"]],
         "kind_free_text": "abstract interpreter over MIR: linear forms over value atoms + facts, tabulated callee analyses, most-general-client harness per public type"},
    ],
    "checks": checks,
    "notes": "Static analysis only: nothing in /repo is executed by any check. Exit 1 means violated or unverifiable (fail closed); exit 2 means infrastructure failure.",
    "not_applicable": [{"property_id": p, "reason": r} for p, r in sorted(NOT_APPLICABLE.items())],
}
with open(os.path.join(ROOT, "MANIFEST.json"), "w") as f:
    json.dump(m, f, indent=1)
print("claimed", sorted(CLAIMED), "not_applicable", sorted(NOT_APPLICABLE))
