#!/usr/bin/env python3
"""mkmut.py <out.diff> <file-in-repo> <old> <new>: writes a unified diff of one textual replacement (the repo is not modified)."""
import difflib, sys
out, f, old, new = sys.argv[1:5]
repo = "/repo/"
s = open(repo + f).read()
if old not in s:
    sys.exit("pattern not found in %s: %r" % (f, old[:60]))
t = s.replace(old, new, 1)
d = difflib.unified_diff(s.splitlines(True), t.splitlines(True), "a/" + f, "b/" + f)
open(out, "w").write("".join(d))
