#!/usr/bin/env python3
"""mkmut.py <out.diff> (<file-in-repo> <old> <new>)+ : writes a unified diff of textual replacements
(the repository is not modified).  Tooling for building mutant / benign patches."""
import difflib, sys
out = sys.argv[1]
trip = sys.argv[2:]
repo = "/repo/"
files = {}
for i in range(0, len(trip), 3):
    f, old, new = trip[i:i + 3]
    s = files.get(f) or open(repo + f).read()
    if old not in s:
        sys.exit("pattern not found in %s: %r" % (f, old[:70]))
    files[f] = s.replace(old, new, 1)
d = []
for f, t in files.items():
    s = open(repo + f).read()
    d += list(difflib.unified_diff(s.splitlines(True), t.splitlines(True), "a/" + f, "b/" + f))
open(out, "w").write("".join(d))
