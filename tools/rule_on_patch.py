#!/usr/bin/env python3
"""rule_on_patch.py <patch.diff|--none> <module> <rule function> : tooling (not a registered check) - runs ONE rule function
(e.g. C13 rule_fill_buf, the E-TERM part of an E-AI check) on a scratch copy of /repo with the patch applied and prints its findings."""
import importlib, os, shutil, subprocess, sys, tempfile
ROOT = os.path.dirname(os.path.dirname(os.path.abspath(__file__)))
sys.path.insert(0, ROOT)
from engine import run as runlib
from rules import pat
patch, mod, fn = sys.argv[1:4]
T = tempfile.mkdtemp(prefix="verif-rule-")
try:
    subprocess.check_call(["rsync", "-a", "--exclude", "target", "--exclude", ".git", "/repo/", T + "/repo/"])
    if patch != "--none":
        subprocess.check_call(["patch", "-p1", "-s", "-i", os.path.abspath(patch)], cwd=T + "/repo")
    os.environ["VERIF_EVIDENCE_DIR"] = T + "/ev"
    ctx = runlib.Context(T + "/repo", "quick", 0, "rule")
    ctx.prepare(None)
    facts = ctx.facts()
    pat.FACTS = facts
    r = getattr(importlib.import_module("rules." + mod), fn)(facts)
    for x in (r if isinstance(r, tuple) else (r,)):
        print(x.rule, "sites=%s" % x.sites, "findings=%d" % len(x.findings))
        for f in x.findings:
            print("  ", f.kind, f.key, "|", f.where, "|", f.message[:200])
    ctx.cleanup()
finally:
    shutil.rmtree(T, ignore_errors=True)
