#!/usr/bin/env python3
"""seeded_detect.py <matrix-dir>... : merges the mutant x check matrix results (tools/matrix.py output, <id>.json per
mutant) into seeded/<id>/meta.json ("detected_by") and prints a markdown table for DESIGN.md section 10.4."""
import glob, json, os, re, sys
ROOT = os.path.dirname(os.path.dirname(os.path.abspath(__file__)))
res = {}
for d in sys.argv[1:]:
    for f in glob.glob(os.path.join(d, "*.json")):
        mid = os.path.basename(f)[:-5]
        res.setdefault(mid, {}).update(json.load(open(f)))
rows = []
for mid in sorted(res):
    mp = os.path.join(ROOT, "seeded", mid, "meta.json")
    if not os.path.exists(mp):
        continue
    meta = json.load(open(mp))
    det = {}
    for p, v in sorted(res[mid].items()):
        if v["rc"] == 1:
            keys = []
            for l in v["findings"]:
                m = re.match(r"(VIOLATED|UNVERIFIABLE) \[([^\]]+)\] (.*)", l)
                if m:
                    keys.append("%s %s: %s" % (m.group(2), m.group(1).lower(), m.group(3)[:200]))
            det[p] = keys[:3]
    meta["detected_by"] = det
    meta["checked_against"] = sorted(res[mid])
    own = meta["property"]
    meta["own_check_reports_it"] = own in det
    json.dump(meta, open(mp, "w"), indent=1)
    first = ""
    if own in det and det[own]:
        first = det[own][0].split(":")[0]
    others = [p for p in det if p != own]
    what = (meta.get("summary") or "")[:110].replace("|", "/").replace("\n", " ")
    rows.append("| %s | %s | %s | %s | %s |" % (mid, "yes" if own in det else "**NO**", first, " ".join(others) or "—", what))
print("| change | own check reports it | first rule | also reported by | what was changed (abridged) |")
print("|--------|----------------------|------------|------------------|------------------------------|")
print("\n".join(rows))
