#!/bin/bash
# usage: try_patch.sh <patch.diff|--revert <commit>> <prop> [prop...]
# Runs checks against a scratch copy of /repo with the patch applied.
set -u
P="$1"; shift
if [ "$P" = "--revert" ]; then REV="$1"; shift; fi
T="$(mktemp -d /tmp/verif-scratch.XXXXXX)"
trap 'rm -rf "$T"' EXIT
rsync -a --exclude target --exclude .git /repo/ "$T/repo/"
cd "$T/repo"
if [ "$P" = "--revert" ]; then
  git -C /repo show "$REV" | patch -R -p1 -s || { echo "revert failed"; exit 3; }
else
  patch -p1 -s < "$P" || { echo "patch failed"; exit 3; }
fi
cd /verif
for prop in "$@"; do
  VERIF_REPO="$T/repo" VERIF_EVIDENCE_DIR="$T/ev" ./check "$prop" 2>&1 | grep -E "VIOLATION|held|VIOLATED|UNVERIFIABLE|infrastructure|KNOWN" | cut -c1-260 | head -8
done
